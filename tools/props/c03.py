"""C03 — mutation kernels leave the tempered target invariant (detailed balance)."""
import ast
import math
import random
import re
from fractions import Fraction

import numpy as np

from common import (COQ, REPO, STDLIB_AXIOMS_REALS, RExprTr, Run, TranslateError, coq_eval_many, get_function, strip_doc,
                    write_if_changed)
import c10

PID = "C03"


def _ns(n):
    return ast.unparse(n).replace(" ", "")


def translate():
    c10.translate()
    mc = REPO / "tempest" / "mcmc.py"

    def need(c, node, msg, w):
        if not c:
            raise TranslateError(f"{w}: line {getattr(node, 'lineno', '?')}: {msg}: {ast.unparse(node)[:220]}")

    # ---- TPCNRunner._propose
    w = "mcmc.py:TPCNRunner._propose"
    fn = get_function(mc, "TPCNRunner._propose")
    body = strip_doc(fn.body)
    src = {(_ns(s.targets[0]) if isinstance(s, ast.Assign) else None): s for s in body}
    need(_ns(src["mu"].value) == "self.means[self.assignments[k]]" and _ns(src["diff"].value) == "self.u[k]-mu"
         and _ns(src["chol_cov"].value) == "self.chol_covs[self.assignments[k]]" and _ns(src["sigma"].value) == "self.sigmas[self.assignments[k]]",
         fn, "mode statistics of the walker's assignment", w)
    need(_ns(src["dot_product"].value) == "diff@self.inv_covs[self.assignments[k]]@diff", src["dot_product"], "Mahalanobis distance", w)
    sub = {"self.n_dim": "d", "self.degrees_of_freedom[self.assignments[k]]": "nu", "dot_product": "delta"}
    shape = RExprTr(sub, w).num(src["gamma_shape"].value)
    scale = RExprTr(sub, w).num(src["gamma_scale"].value)
    need(_ns(src["s"].value) == "1.0/np.random.gamma(shape=gamma_shape,scale=gamma_scale)", src["s"], "scale draw", w)
    def proposal_shape(stmts, where_):
        """Two shapes: (a) 'while True: proposal=...; proposal=apply_bc(...); if check_bounds(...): return proposal' (redraw until
        inside), (b) 'proposal=...; return apply_bc(proposal, ...)' (one draw; run() rejects out-of-cube proposals)."""
        loops = [x for x in stmts if isinstance(x, ast.While)]
        if loops:
            lp = loops[0]
            need(len(loops) == 1 and _ns(lp.test) == "True" and len(lp.body) == 3, lp, "redraw loop", where_)
            need(_ns(lp.body[1]) == "proposal=apply_boundary_conditions(proposal,self.periodic,self.reflective)", lp.body[1], "boundary map", where_)
            need(_ns(lp.body[2]).replace("\n", "") == "ifcheck_bounds(proposal,self.periodic,self.reflective):returnproposal", lp.body[2], "bounds test", where_)
            return lp.body[0], "redraw"
        asg = [x for x in stmts if isinstance(x, ast.Assign) and _ns(x.targets[0]) == "proposal"]
        need(len(asg) == 1 and isinstance(stmts[-1], ast.Return) and stmts[-2] is asg[0]
             and _ns(stmts[-1].value) == "apply_boundary_conditions(proposal,self.periodic,self.reflective)", stmts[-1], "single proposal + boundary map", where_)
        return asg[0], "single"
    prop, tp_shape = proposal_shape(body, w)
    need(isinstance(prop, ast.Assign) and _ns(prop.targets[0]) == "proposal", prop, "proposal", w)
    e = prop.value
    # mu + A*diff + N*chol_cov @ randn
    need(isinstance(e, ast.BinOp) and isinstance(e.op, ast.Add) and isinstance(e.left, ast.BinOp) and _ns(e.left.left) == "mu", e, "proposal form", w)
    t_cn, t_noise = e.left.right, e.right
    need(isinstance(t_cn, ast.BinOp) and isinstance(t_cn.op, ast.Mult) and _ns(t_cn.right) == "diff", t_cn, "contraction term", w)
    cn = RExprTr({"sigma": "sigma"}, w).num(t_cn.left)
    need(isinstance(t_noise, ast.BinOp) and isinstance(t_noise.op, ast.MatMult) and _ns(t_noise.right) == "np.random.randn(self.n_dim)"
         and isinstance(t_noise.left, ast.BinOp) and _ns(t_noise.left.right) == "chol_cov", t_noise, "noise term", w)
    noise = RExprTr({"sigma": "sigma", "s": "s"}, w).num(t_noise.left.left)
    # ---- TPCNRunner._compute_acceptance_factor
    w = "mcmc.py:TPCNRunner._compute_acceptance_factor"
    fn = get_function(mc, "TPCNRunner._compute_acceptance_factor")
    b2 = {(_ns(s.targets[0]) if isinstance(s, ast.Assign) else None): s for s in strip_doc(fn.body)}
    need(_ns(b2["diff"].value) == "self.u-means_assigned" and _ns(b2["diff_prime"].value) == "u_prime-means_assigned"
         and _ns(b2["means_assigned"].value) == "self.means[self.assignments]", fn, "centred states", w)
    need(_ns(b2["dot_products"].value) == "np.einsum('ij,ijk,ik->i',diff,self.inv_covs[self.assignments],diff)"
         and _ns(b2["dot_prime"].value) == "np.einsum('ij,ijk,ik->i',diff_prime,self.inv_covs[self.assignments],diff_prime)", fn, "distances", w)
    subB = {"self.n_dim": "d", "self.degrees_of_freedom[self.assignments]": "nu", "dot_products": "delta"}
    subA = {"self.n_dim": "d", "self.degrees_of_freedom[self.assignments]": "nu", "dot_prime": "delta'"}
    B = RExprTr(subB, w).num(b2["B"].value)
    A = RExprTr(subA, w).num(b2["A"].value)
    ret = next(s for s in strip_doc(fn.body) if isinstance(s, ast.Return))
    factor = RExprTr({"A": f"({A})", "B": f"({B})"}, w).num(ret.value)
    # ---- RWM
    w = "mcmc.py:RWMRunner"
    rp = get_function(mc, "RWMRunner._propose")
    rprop, rw_shape = proposal_shape(strip_doc(rp.body), w)
    need(_ns(rprop) == "proposal=self.u[k]+sigma*chol_cov@np.random.randn(self.n_dim)", rprop, "RWM proposal", w)
    need(tp_shape == rw_shape, rp, f"the two kernels treat out-of-cube proposals differently ({tp_shape} / {rw_shape})", w)
    rf = get_function(mc, "RWMRunner._compute_acceptance_factor")
    need(_ns(strip_doc(rf.body)[-1]) == "returnnp.zeros(self.n_walkers)", rf, "RWM factor", w)
    # ---- accept block
    w = "mcmc.py:BaseMCMCRunner.run"
    run_fn = get_function(mc, "BaseMCMCRunner.run")
    t = _ns(run_fn)
    need("alpha=np.minimum(1.0,alpha)" in t and "alpha=np.nan_to_num(alpha,nan=0.0)" in t, run_fn, "alpha clipping", w)
    need("u_rand=np.random.rand(self.n_walkers)" in t and "mask_accept=u_rand<alpha" in t, run_fn, "Metropolis test", w)
    # out-of-cube proposals: either never produced (redraw shape) or rejected here
    wl = next(x for x in strip_doc(run_fn.body) if isinstance(x, ast.While))
    st = [_ns(x).replace("\n", "") for x in wl.body]

    def pos(frag):
        hits = [i for i, x in enumerate(st) if x.startswith(frag)]
        return hits[0] if len(hits) == 1 else None
    i_prop, i_x, i_nan, i_rand = pos("forkinrange(self.n_walkers):u_prime[k]=self._propose(k)"), pos("x_prime="), pos("alpha=np.nan_to_num("), pos("u_rand=")
    need(None not in (i_prop, i_x, i_nan, i_rand) and i_prop < i_x < i_nan < i_rand, wl, "order of propose / transform / alpha / draw", w)
    i_in, i_ph, i_zero = (pos("inside=np.array([check_bounds(u_p,self.periodic,self.reflective)foru_pinu_prime])"),
                          pos("u_prime[~inside]=self.u[~inside]"), pos("alpha[~inside]=0.0"))
    rejects = None not in (i_in, i_ph, i_zero) and i_prop < i_in < i_ph < i_x and i_nan < i_zero < i_rand
    need(rejects or (i_in is None and i_ph is None and i_zero is None), wl, "partial out-of-cube rejection", w)
    need(not (tp_shape == "single" and not rejects), wl, "single-draw proposals but out-of-cube proposals are not rejected in run()", w)
    cube_rule_rejects = (tp_shape == "single" and rejects)
    # the inverse and the Cholesky factor the kernels read are those of one and the same scale matrix
    ini = get_function(REPO / "tempest" / "modes.py", "ModeStatistics.__init__")
    derived = {_ns(s.targets[0]): _ns(s.value) for s in ast.walk(ini) if isinstance(s, ast.Assign)
               and _ns(s.targets[0]) in ("self.inv_covariances", "self.chol_covariances")}
    need(derived == {"self.inv_covariances": "np.linalg.inv(self.covariances)", "self.chol_covariances": "np.linalg.cholesky(self.covariances)"},
         ini, f"derived scale quantities {derived}", "modes.py:ModeStatistics.__init__")
    mct = mc.read_text().replace(" ", "")
    need(mct.count("self.inv_covs=self.mode_stats.inv_covariances") == 1 and mct.count("self.chol_covs=self.mode_stats.chol_covariances") == 2,
         fn, "kernels read the mode statistics' inverse and Cholesky factor", "mcmc.py")
    # boundary options: the tpCN runner drops them (every coordinate bounded, out-of-cube proposals rejected); RWM keeps them
    tin = get_function(mc, "TPCNRunner.__init__")
    tst = [_ns(x) for x in strip_doc(tin.body)]
    need(tst and tst[0] == "super().__init__(*args,**kwargs)", tin, "runner initialisation", "mcmc.py:TPCNRunner.__init__")
    tpcn_bounded = "self.periodic=None" in tst and "self.reflective=None" in tst
    need(tpcn_bounded or ("self.periodic=None" not in tst and "self.reflective=None" not in tst), tin,
         "tpCN drops only one of the two boundary options", "mcmc.py:TPCNRunner.__init__")
    rin = get_function(mc, "RWMRunner.__init__")
    rst = [_ns(x) for x in strip_doc(rin.body)]
    need(rst and rst[0] == "super().__init__(*args,**kwargs)", rin, "runner initialisation", "mcmc.py:RWMRunner.__init__")
    # RWM: wrapping a periodic coordinate is a translation (exact for every scale matrix); folding at a reflective wall is
    # symmetric only for scale matrices that do not couple that coordinate to the others, so the runner must not fold
    rwm_rule = "self.reflective=None" in rst and all("periodic" not in x for x in rst)
    pr = _ns(get_function(mc, "RWMRunner._propose"))
    need("returnapply_boundary_conditions(proposal,self.periodic,self.reflective)" in pr, rin, "RWM proposal goes through the boundary map with the runner's own lists",
         "mcmc.py:RWMRunner._propose")
    bin_ = _ns(get_function(mc, "BaseMCMCRunner.__init__"))
    need("self.periodic=periodic" in bin_ and "self.reflective=reflective" in bin_, rin, "base runner stores the boundary options", "mcmc.py")
    text = f"""(* GENERATED from /repo/tempest/mcmc.py (TPCNRunner, RWMRunner, BaseMCMCRunner.run) by tools/props/c03.py *)
From Coq Require Import Reals.
Local Open Scope R_scope.
Definition gamma_shape (d nu : R) : R := {shape}.
Definition gamma_scale (nu delta : R) : R := {scale}.
Definition cn_coeff (sigma : R) : R := {cn}.
Definition noise_coeff (sigma s : R) : R := {noise}.
Definition tpcn_factor (d nu delta delta' : R) : R := {factor}.
Definition rwm_factor_is_zero : bool := true.
Definition rwm_proposal_is_u_plus_sigma_chol_z : bool := true.
Definition tpcn_proposal_is_mu_plus_a_diff_plus_noise : bool := true.
Definition scale_is_inverse_of_gamma_draw : bool := true.
Definition delta_uses_inverse_scale_of_assigned_mode : bool := true.
Definition accept_mask_is_uniform_strictly_below_alpha : bool := true.
Definition alpha_is_min_one_exp_nan_to_zero : bool := true.
Definition out_of_cube_proposals_are_rejected : bool := {str(bool(cube_rule_rejects)).lower()}.
Definition inverse_and_cholesky_are_of_the_mode_scale_matrix : bool := true.
Definition tpcn_rejects_on_every_coordinate : bool := {str(bool(tpcn_bounded and cube_rule_rejects)).lower()}.
Definition rwm_wraps_periodic_and_rejects_at_reflective_walls : bool := {str(bool(rwm_rule and cube_rule_rejects)).lower()}.
"""
    write_if_changed(COQ / "Gen" / "Kernel.v", text)


# ------------------------------------------------------------------ helpers
def rq(x):
    fr = Fraction(x)
    return f"({fr.numerator}/{fr.denominator})" if fr.denominator != 1 else f"({fr.numerator})"


def make_runner(kind, u, logl, means, covs, dof, assignments, beta, like, periodic=None, reflective=None, prior=lambda v: v):
    from tempest.mcmc import TPCNRunner, RWMRunner
    from tempest.modes import ModeStatistics
    ms = ModeStatistics(np.array(means), np.array(covs), np.array(dof))
    cls = TPCNRunner if kind == "tpcn" else RWMRunner
    x = np.array([prior(v) for v in u])
    return cls(u, x, logl, None, np.array(assignments), beta, ms, like, prior, None, 1, 2, periodic, reflective, False)


def formula_checks(run, tier, rng):
    """proposal and acceptance formulas with injected randomness vs verified enclosures of the generated definitions"""
    n_cases = 8 if tier == "quick" else 60
    goals = []
    impl = {}
    orig_gamma, orig_randn = np.random.gamma, np.random.randn
    for t in range(n_cases):
        nr = np.random.RandomState(rng.randrange(2 ** 31))
        d = rng.choice([1, 2, 3])
        K = rng.choice([1, 2, 3])
        means = 0.5 + 0.05 * nr.randn(K, d)
        covs = []
        for _ in range(K):
            Lm = np.tril(nr.randn(d, d)) * 0.01 + 0.03 * np.eye(d)
            covs.append(Lm @ Lm.T)
        dof = [rng.choice([0.7, 1.5, 2.0, 5.0, 30.0]) for _ in range(K)]
        nw = 3
        u = np.clip(0.5 + 0.03 * nr.randn(nw, d), 0.2, 0.8)
        asg = [rng.randrange(K) for _ in range(nw)]
        if K == 3:
            asg = [rng.choice([0, 2]) for _ in range(nw)] if t % 2 else [rng.choice([1, 2]) for _ in range(nw)]   # a lower-indexed mode holds no walker
        like = lambda X: (np.array([-0.5 * float(np.sum((v - 0.5) ** 2)) / 0.01 for v in X]), None)
        logl, _ = like(u)
        beta = rng.choice([0.3, 1.0])
        r = make_runner("tpcn", u, logl, means, covs, dof, asg, beta, like)
        if t % 2 == 1:
            # formulas are checked on the state reached after real iterations of run() (walkers have moved): anything the
            # runner carries over from one iteration to the next must refer to the walkers' current positions
            np.random.seed(rng.randrange(2 ** 31))
            r.run()
            u, logl = r.u.copy(), r.logl.copy()
            run.count("formula case checked after real iterations of run()")
        r.sigmas[:] = rng.choice([0.3, 0.6, 0.9])
        k = rng.randrange(nw)
        rec = {}
        gval = rng.uniform(0.5, 3.0)
        z = nr.randn(d) * 0.3

        def fake_gamma(shape=None, scale=None, *a, **kw):
            rec["shape"], rec["scale"] = float(shape), float(scale)
            return gval

        np.random.gamma, np.random.randn = fake_gamma, (lambda *a: z.copy())
        try:
            prop = r._propose(k)
        finally:
            np.random.gamma, np.random.randn = orig_gamma, orig_randn
        run.case(key=("propose", t), nontrivial=True)
        c = asg[k]
        mu, nu, sigma = means[c], dof[c], float(r.sigmas[min(c, len(r.sigmas) - 1)])
        diff = u[k] - mu
        P = np.linalg.inv(covs[c])
        delta = float(diff @ P @ diff)
        s = 1.0 / gval
        Lz = np.linalg.cholesky(covs[c]) @ z
        tag = f"p{t}"
        # gamma parameters: rational expressions, exact
        goals.append((tag + "_shape", f"Gen.Kernel.gamma_shape {rq(d)} {rq(nu)}", rec["shape"], 1e-12))
        goals.append((tag + "_scale", f"Gen.Kernel.gamma_scale {rq(nu)} {rq(delta)}", rec["scale"], 1e-9))
        for j in range(d):
            goals.append((tag + f"_x{j}", f"{rq(mu[j])} + Gen.Kernel.cn_coeff {rq(sigma)} * {rq(diff[j])} + Gen.Kernel.noise_coeff {rq(sigma)} {rq(s)} * {rq(Lz[j])}",
                          float(prop[j]), 1e-10))
        # acceptance factor for a proposed state
        up = u.copy()
        up[k] = prop
        fac = r._compute_acceptance_factor(up, logl)
        dp = up[k] - mu
        delta_p = float(dp @ P @ dp)
        goals.append((tag + "_factor", f"Gen.Kernel.tpcn_factor {rq(d)} {rq(nu)} {rq(delta)} {rq(delta_p)}", float(fac[k]), 1e-8))
    for g in goals:
        impl[g[0]] = (g[2], g[3])
    shard = 12
    srcs = []
    for i in range(0, len(goals), shard):
        body = "\n".join(
            f'  interval_intro ({expr}) with (i_prec 80) as H.\n  match type of H with (?a <= _ <= ?b) => idtac "RES {tag} LO" a "HI" b end. clear H.'
            for (tag, expr, _, _) in goals[i:i + shard])
        srcs.append("From Coq Require Import Reals.\nFrom Interval Require Import Tactic.\nFrom Tempest Require Gen.Kernel.\nOpen Scope R_scope.\nGoal True.\n"
                    "  unfold Gen.Kernel.gamma_shape, Gen.Kernel.gamma_scale, Gen.Kernel.cn_coeff, Gen.Kernel.noise_coeff, Gen.Kernel.tpcn_factor.\n"
                    + body.replace("interval_intro (", "unfold Gen.Kernel.gamma_shape, Gen.Kernel.gamma_scale, Gen.Kernel.cn_coeff, Gen.Kernel.noise_coeff, Gen.Kernel.tpcn_factor; interval_intro (")
                    + "\n  exact I.\nQed.\n")
    res = coq_eval_many(run.scratch, srcs, timeout=600)
    enc = {}
    for ok, out in res:
        if not ok:
            run.broken.append(("interval-coqc", out[-1500:]))
            return
        o = out.replace("\n", " ")
        for m in re.finditer(r"RES (\S+) LO \(?\s*(-?\d+)\s*(?:/\s*(\d+))?\s*\)? HI \(?\s*(-?\d+)\s*(?:/\s*(\d+))?\s*\)?", o):
            enc[m.group(1)] = (Fraction(int(m.group(2)), int(m.group(3) or 1)), Fraction(int(m.group(4)), int(m.group(5) or 1)))
    missing = [k for k in impl if k not in enc]
    if missing:
        run.broken.append(("interval-parse", f"{len(missing)} enclosures missing: {missing[:3]}"))
        return
    for tag, (v, tol) in impl.items():
        lo, hi = enc[tag]
        slack = Fraction(tol) * (1 + abs(Fraction(v)))
        if not (lo - slack <= Fraction(v) <= hi + slack):
            run.disagree("kernel formula: implementation vs enclosure of the generated definition", which=tag, impl=v, lo=float(lo), hi=float(hi))
            what = "proposal coordinate" if "_x" in tag else ("acceptance correction" if "factor" in tag else "gamma parameter")
            run.fail("kernel-formula-wrong", f"{what} {tag}: implementation {v!r} vs formula enclosure [{float(lo)!r}, {float(hi)!r}]")
    run.extra["enclosures"] = len(enc)
    run.sample(dict(kind="formula", example=goals[2][1][:160], impl=goals[2][2]))


def accept_block(run, tier, rng):
    """Metropolis test with injected uniforms: accepted iff u < min(1, exp(beta*(l'-l) + factor)); all fields updated together"""
    from tempest import mcmc
    reps = 6 if tier == "quick" else 40
    orig_rand = np.random.rand
    for t in range(reps):
        nr = np.random.RandomState(rng.randrange(2 ** 31))
        kind = rng.choice(["tpcn", "rwm"])
        nw, d = 12, 2
        u = np.clip(0.5 + 0.05 * nr.randn(nw, d), 0.05, 0.95)
        like = lambda X: (np.array([-0.5 * float(np.sum((v - 0.5) ** 2)) / 0.02 for v in X]), None)
        logl, _ = like(u)
        beta = rng.choice([0.2, 0.7, 1.0])
        r = make_runner(kind, u, logl, [[0.5, 0.5]], [np.eye(2) * 0.02], [4.0], [0] * nw, beta, like)
        ur = nr.rand(nw)
        ur[0], ur[1] = 0.0, np.nextafter(1.0, 0)
        captured = {}
        orig_factor = r._compute_acceptance_factor

        def spy(up, lp):
            f = orig_factor(up, lp)
            captured["up"], captured["lp"], captured["f"] = up.copy(), lp.copy(), np.array(f).copy()
            return f

        r._compute_acceptance_factor = spy
        r._check_convergence = lambda a: True
        np.random.rand = lambda *a: ur.copy() if a else float(ur[0])
        try:
            out = r.run()
        finally:
            np.random.rand = orig_rand
        run.case(key=("accept", t), nontrivial=True)
        alpha = np.minimum(1.0, np.exp(beta * (captured["lp"] - logl) + captured["f"]))
        alpha = np.nan_to_num(alpha, nan=0.0)
        want = ur < alpha
        got = np.any(out[0] != u, axis=1) | (out[2] != logl)
        moved_ok = np.all(out[0][want] == captured["up"][want]) and np.all(out[2][want] == captured["lp"][want]) \
            and np.all(out[0][~want] == u[~want]) and np.all(out[2][~want] == logl[~want])
        if not moved_ok:
            run.fail("accept-rule-wrong", f"{kind}: walkers moved {np.where(got)[0].tolist()} but u < min(1, exp(beta*(l'-l)+factor)) holds for {np.where(want)[0].tolist()}",
                     kernel=kind, beta=beta)
        if kind == "rwm" and np.any(captured["f"] != 0):
            run.fail("rwm-factor-nonzero", "RWM applies a proposal correction", kernel=kind)

    # a likelihood that is NaN on part of the cube (0/0, inf - inf in user code): such a proposal has no defined ratio and must be
    # rejected - no walker may end up carrying a NaN log-likelihood, whatever the uniforms
    for kind in ("tpcn", "rwm"):
        nr = np.random.RandomState(rng.randrange(2 ** 31))
        nw = 40
        u = np.clip(0.5 + 0.03 * nr.randn(nw, 2), 0.05, 0.95)
        u[:, 0] = np.minimum(u[:, 0], 0.58)
        like = lambda X: (np.array([(-0.5 * float(np.sum((v - 0.5) ** 2)) / 0.02) if v[0] < 0.6 else float("nan") for v in X]), None)
        logl, _ = like(u)
        r = make_runner(kind, u, logl, [[0.5, 0.5]], [np.eye(2) * 0.05], [4.0], [0] * nw, 1.0, like)
        np.random.seed(5)
        with np.errstate(all="ignore"):
            out = r.run()
        run.case(key=("accept-nan", kind), nontrivial=True)
        if np.any(np.isnan(out[2])) or np.any(out[0][:, 0] >= 0.6):
            run.fail("nan-ratio-accepted", f"{kind}: {int(np.sum(np.isnan(out[2])))} of {nw} walkers moved to points where the likelihood is NaN "
                     f"(an undefined acceptance ratio must reject)", kernel=kind, seed=5)


# ------------------------------------------------------------------ ensemble stationarity
def ensemble(kind, target, n_walk, seed, periodic=None, reflective=None, n_steps=4):
    from tempest.mcmc import parallel_mcmc
    from tempest.modes import ModeStatistics
    nr = np.random.RandomState(seed)
    u0 = target["draw"](nr, n_walk)
    np.random.seed(seed + 1)
    like = lambda X: (np.array([target["logl"](v) for v in X]), None)
    logl, _ = like(u0)
    ms = ModeStatistics(np.array([target["mean"]]), np.array([target["cov"]]), np.array([target.get("dof", 5.0)]))
    out = parallel_mcmc(u=u0, x=u0.copy(), logl=logl, blobs=None, assignments=np.zeros(n_walk, dtype=int), beta=1.0, mode_stats=ms,
                        log_likelihood=like, prior_transform=lambda v: v, progress_bar=None, n_steps=n_steps, n_max=n_steps + 1,
                        sample=kind, periodic=periodic, reflective=reflective, verbose=False)
    LEFT_CUBE.append((kind, None if periodic is None else [int(v) for v in periodic], None if reflective is None else [int(v) for v in reflective],
                      int(np.sum(np.any((out[0] < 0) | (out[0] > 1), axis=1))), n_walk, seed))
    return u0, out[0]


LEFT_CUBE = []    # (kernel, periodic, reflective, walkers outside [0,1]^d after mutation, walkers, seed) of every ensemble, in order


def z_of(stat_vals, mean, sd):
    n = len(stat_vals)
    return (float(np.mean(stat_vals)) - mean) / (sd / math.sqrt(n))


def stationarity(run, tier):
    n_walk = 6000 if tier == "quick" else 30000
    # (a) interior Gaussian: kernel must leave it invariant
    s0 = 0.04
    interior = dict(draw=lambda nr, n: 0.5 + s0 * nr.randn(n, 1), logl=lambda v: -0.5 * float((v[0] - 0.5) ** 2) / s0 ** 2,
                    mean=[0.5], cov=[[s0 ** 2 * 1.5]], dof=5.0)
    for kind in ("rwm", "tpcn"):
        u0, u1 = ensemble(kind, interior, n_walk, 101)
        run.case(key=("stationarity-interior", kind), nontrivial=True)
        z1 = z_of(u1[:, 0], 0.5, s0)
        z2 = z_of((u1[:, 0] - 0.5) ** 2, s0 ** 2, math.sqrt(2) * s0 ** 2)
        if abs(z1) > 6 or abs(z2) > 6:
            run.fail("interior-target-not-invariant", f"{kind}: after mutation of exact draws from an interior Gaussian, mean z={z1:.1f}, variance z={z2:.1f}",
                     kernel=kind, n_walkers=n_walk, seed=101)
    # (b) periodic coordinate, RWM: wrapped target exp(kappa cos(2 pi u))
    kappa = 2.0
    from scipy import special

    def vm_draw(nr, n):
        return (nr.vonmises(0.0, kappa, size=(n, 1)) / (2 * np.pi)) % 1.0

    periodic_t = dict(draw=vm_draw, logl=lambda v: kappa * math.cos(2 * math.pi * v[0]), mean=[0.5], cov=[[0.09]], dof=5.0)
    u0, u1 = ensemble("rwm", periodic_t, n_walk, 202, periodic=np.array([0]))
    run.case(key=("stationarity-periodic", "rwm"), nontrivial=True)
    c = np.cos(2 * np.pi * u1[:, 0])
    m1 = special.iv(1, kappa) / special.iv(0, kappa)
    var_c = 0.5 * (1 + special.iv(2, kappa) / special.iv(0, kappa)) - m1 ** 2
    z = z_of(c, m1, math.sqrt(var_c))
    if abs(z) > 6:
        run.fail("periodic-target-not-invariant", f"rwm with a periodic coordinate: mean cos z={z:.1f}", kernel="rwm", seed=202)
    # (c) reflective coordinate, RWM: half-Gaussian abutting u = 0
    sh = 0.15

    def half_draw(nr, n):
        return np.abs(sh * nr.randn(n, 1))

    half = dict(draw=half_draw, logl=lambda v: -0.5 * float(v[0] ** 2) / sh ** 2, mean=[0.0], cov=[[sh ** 2]], dof=5.0)
    m_half = sh * math.sqrt(2 / math.pi)
    sd_half = sh * math.sqrt(1 - 2 / math.pi)
    u0, u1 = ensemble("rwm", half, n_walk, 303, reflective=np.array([0]))
    run.case(key=("stationarity-reflective", "rwm"), nontrivial=True)
    z = z_of(u1[:, 0], m_half, sd_half)
    if abs(z) > 6:
        run.fail("reflective-target-not-invariant", f"rwm with a reflective coordinate: mean z={z:.1f}", kernel="rwm", seed=303)
    # (c') tpCN with a periodic / a reflective coordinate and mode statistics NOT symmetric about the boundary
    for mean, cov in (([0.5], [[0.09]]), ([0.05], [[0.02]])):
        t = dict(periodic_t, mean=mean, cov=cov)
        u0, u1 = ensemble("tpcn", t, n_walk, 212, periodic=np.array([0]), n_steps=8)
        run.case(key=("stationarity-periodic", "tpcn", mean[0]), nontrivial=True)
        zc = z_of(np.cos(2 * np.pi * u1[:, 0]), m1, math.sqrt(var_c))
        zs = z_of(np.sin(2 * np.pi * u1[:, 0]), 0.0, math.sqrt(0.5 * (1 - special.iv(2, kappa) / special.iv(0, kappa))))
        run.extra[f"tpcn_periodic_z_mean{mean[0]}"] = [round(zc, 2), round(zs, 2)]
        if abs(zc) > 6 or abs(zs) > 6:
            run.fail("periodic-target-not-invariant", f"tpcn with a periodic coordinate (mode mean {mean[0]}): after 8 steps on exact von Mises "
                     f"draws, mean cos z={zc:.1f}, mean sin z={zs:.1f}", kernel="tpcn", n_walkers=n_walk, seed=212, mode_mean=mean, mode_cov=cov)
    t = dict(half, mean=[0.12], cov=[[0.008]])
    u0, u1 = ensemble("tpcn", t, n_walk, 313, reflective=np.array([0]), n_steps=8)
    run.case(key=("stationarity-reflective", "tpcn"), nontrivial=True)
    z = z_of(u1[:, 0], m_half, sd_half)
    run.extra["tpcn_reflective_z"] = round(z, 2)
    if abs(z) > 6:
        run.fail("reflective-target-not-invariant", f"tpcn with a reflective coordinate (mode mean 0.12): mean z={z:.1f}", kernel="tpcn",
                 n_walkers=n_walk, seed=313)
    # (c'') two coordinates and a CORRELATED scale matrix: the first coordinate periodic / reflective, the second interior.
    # paired statistics (after - before on the same exact draws), so the check is sensitive to small drifts
    s1 = 0.1
    rho = 0.8
    cov2 = [[0.02, rho * math.sqrt(0.02 * 0.01)], [rho * math.sqrt(0.02 * 0.01), 0.01]]
    ref2 = dict(draw=lambda nr, n: np.column_stack([np.abs(sh * nr.randn(n)), 0.5 + s1 * nr.randn(n)]),
                logl=lambda v: -0.5 * float(v[0] ** 2) / sh ** 2 - 0.5 * float((v[1] - 0.5) ** 2) / s1 ** 2, mean=[0.0, 0.5], cov=cov2, dof=5.0)
    per2 = dict(draw=lambda nr, n: np.column_stack([(nr.vonmises(0.0, kappa, size=n) / (2 * np.pi)) % 1.0, 0.5 + s1 * nr.randn(n)]),
                logl=lambda v: kappa * math.cos(2 * math.pi * v[0]) - 0.5 * float((v[1] - 0.5) ** 2) / s1 ** 2, mean=[0.5, 0.5], cov=cov2, dof=5.0)

    def paired(a, b, f):
        dlt = f(b) - f(a)
        return float(np.mean(dlt) / (np.std(dlt) / math.sqrt(len(dlt)) + 1e-300))

    # the same reflective target shrunk by 3e-4 (standard deviations of 3e-5, covariance entries of 1e-9): correlation is a property of
    # the matrix, not of the size of its entries
    sc3 = 3e-4
    ref3 = dict(draw=lambda nr, n: np.column_stack([np.abs(sc3 * sh * nr.randn(n)), 0.5 + sc3 * s1 * nr.randn(n)]),
                logl=lambda v: -0.5 * float(v[0] ** 2) / (sc3 * sh) ** 2 - 0.5 * float((v[1] - 0.5) ** 2) / (sc3 * s1) ** 2, mean=[0.0, 0.5],
                cov=(np.array(cov2) * sc3 ** 2).tolist(), dof=5.0)
    for kind in ("rwm", "tpcn"):
        for name, t, kw in (("reflective", ref2, dict(reflective=np.array([0]))), ("periodic", per2, dict(periodic=np.array([0]))),
                            ("reflective-narrow", ref3, dict(reflective=np.array([0])))):
            u0, u1 = ensemble(kind, t, n_walk, 505, n_steps=8, **kw)
            run.case(key=("stationarity-correlated", kind, name), nontrivial=True)
            if name.startswith("reflective"):
                zs_ = dict(u0=paired(u0, u1, lambda u: u[:, 0]), u1=paired(u0, u1, lambda u: u[:, 1]),
                           cross=paired(u0, u1, lambda u: u[:, 0] * (u[:, 1] - 0.5)))
            else:
                zs_ = dict(cos=paired(u0, u1, lambda u: np.cos(2 * np.pi * u[:, 0])), sin=paired(u0, u1, lambda u: np.sin(2 * np.pi * u[:, 0])),
                           u1=paired(u0, u1, lambda u: u[:, 1]), cross=paired(u0, u1, lambda u: np.sin(2 * np.pi * u[:, 0]) * (u[:, 1] - 0.5)))
            run.extra[f"correlated_{name}_z_{kind}"] = {k_: round(v_, 2) for k_, v_ in zs_.items()}
            if max(abs(v_) for v_ in zs_.values()) > 6:
                run.fail("correlated-scale-target-not-invariant",
                         f"{kind} with coordinate 0 {name} and a mode scale matrix of correlation {rho}: exact draws of a product target drift after 8 steps "
                         f"(paired z: {', '.join(f'{k_}={v_:.1f}' for k_, v_ in zs_.items())}): folding a correlated step at a wall is not symmetric",
                         kernel=kind, boundary=name, n_walkers=n_walk, seed=505, scale_matrix=cov2)
    # (d) HARD boundary: the same half-Gaussian with no boundary option (out-of-cube proposals must be rejected, not redrawn)
    for kind in ("rwm", "tpcn"):
        u0, u1 = ensemble(kind, half, n_walk, 404, n_steps=8)
        run.case(key=("stationarity-hard", kind), nontrivial=True)
        z = z_of(u1[:, 0], m_half, sd_half)
        run.extra[f"hard_boundary_z_{kind}"] = round(z, 2)
        if abs(z) > 6:
            run.fail("hard-boundary-target-not-invariant",
                     f"{kind}: exact draws from a half-Gaussian abutting the hard boundary u=0 drift after mutation (mean z={z:.1f}): "
                     f"the kernel does not leave the target invariant at a hard boundary (redrawing out-of-cube proposals instead "
                     f"of rejecting them tilts the invariant law by P(step lands inside))", kernel=kind, n_walkers=n_walk, seed=404)


def kernel_sequence_probe(run):
    """kernels with different boundary designations one after the other in one process, in a dimension nothing else here uses: what one
    runner was told about its coordinates must not reach the next one"""
    flat = dict(draw=lambda nr, n: nr.rand(n, 5), logl=lambda v: 0.0, mean=[0.5] * 5, cov=(np.eye(5) * 0.09).tolist(), dof=5.0)
    for kind, kw in (("rwm", dict(periodic=np.array([0]))), ("tpcn", {}), ("rwm", dict(periodic=np.array([1]))), ("rwm", {})):
        ensemble(kind, flat, 400, 707, n_steps=3, **kw)
        run.case(key=("kernel-sequence", kind, str(sorted(kw))), nontrivial=True)


def cube_check(run):
    """whatever kernels ran before in this process with other boundary designations: after a mutation every walker is inside the unit cube"""
    for i, (kind, per, ref, n_out, n_walk, seed) in enumerate(LEFT_CUBE):
        if n_out:
            run.fail("walker-left-the-cube", f"{kind} (periodic={per}, reflective={ref}): {n_out} of {n_walk} walkers are outside [0,1]^d after the mutation; "
                     f"kernels run before it in the same process: {[(k_, p_, r_) for (k_, p_, r_, *_rest) in LEFT_CUBE[:i]][-4:]}", kernel=kind, periodic=per, reflective=ref, seed=seed)
            return


def main(tier, seed):
    run = Run(PID, tier, seed)
    run.rule = ("(i) tpCN proposals and acceptance corrections with the gamma and normal draws injected, over K in {1,2}, d in "
                "{1,2,3}, dof in {2,5,30}, sigma in {0.3,0.6,0.9}: every proposal coordinate, the gamma shape/scale and the "
                "correction factor must lie in the verified enclosure (Coq Interval) of the definitions generated from the "
                "source; (ii) the Metropolis test with injected uniforms (incl. 0.0 and nextafter(1,0)); (iii) ensemble "
                "stationarity with fixed seeds: exact draws from an interior Gaussian / a wrapped target on a periodic "
                "coordinate / a half-Gaussian on a reflective coordinate must stay distributed as the target after "
                "mutation (|z| <= 6), including a half-Gaussian abutting a hard boundary (no boundary option) and two-coordinate product "
                "targets with a periodic / reflective first coordinate and a mode scale matrix of correlation 0.8 (paired statistics).")
    run.assumptions = [
        "measure-theoretic lift: theorems are about densities (pointwise detailed balance); the two integral facts "
        "(t = scale mixture of normals; normalisation of the inverse-gamma conditional) are classical and not formalised",
        "step-size adaptation during a mutation phase is not covered (each step's kernel at fixed sigma is what is proved)",
        "neither kernel folds at reflective walls any more (tpCN: 055ee3c, RWM: this session's repair); the fold theorems are kept "
        "as the one-coordinate fact and its several-coordinate refutation",
        "ensemble checks are statistical validations with fixed seeds; they exhibit failures, they prove nothing",
    ]
    rng = random.Random(seed)
    try:
        translate()
        run.obligation("translate:mcmc.py proposal/acceptance formulas", True)
    except Exception as e:  # fail closed: anything the translator cannot digest
        run.obligation("translate:mcmc.py proposal/acceptance formulas", False, str(e))
    run.prove("Props/C03.v", link_rels=["Link/Shift.v", "Link/Kernel.v"], allowed_axioms=STDLIB_AXIOMS_REALS)
    run.prove("Props/C03P.v")
    try:
        formula_checks(run, tier, rng)
        accept_block(run, tier, rng)
        kernel_sequence_probe(run)
        stationarity(run, tier)
        cube_check(run)
    except Exception:
        import traceback
        run.broken.append(("harness-exception", traceback.format_exc()[-1500:]))
    run.finish(search=None)
