"""C02 — reported log-evidence is consistent and independent across seeded runs (partial proof + ensemble validation)."""
import math

import numpy as np

from common import STDLIB_AXIOMS_REALS, Run, TranslateError
import c04
import c09
import c11
import c12
import ensemble as ens

PID = "C02"


def translate():
    c04.translate(); c12.translate(); c09.translate(); c11.translate()


def validate(run, tier):
    R = 24 if tier == "quick" else 96
    cfgs = [dict(clustering=False), dict(clustering=True, sample="rwm", resample="syst")]
    if tier != "quick":
        cfgs += [dict(clustering=True), dict(clustering=False, sample="rwm"), dict(clustering=True, cluster_every=2)]
    for cfg in cfgs:
        errs = {}
        for npart in (32, 128):
            res = ens.run_ensemble("interior", cfg, R, npart, 7000)
            bad = [r for r in res if not r["ok"]]
            what = dict(target="interior", cfg=cfg, runs=R, n_particles=npart, seeds="7000..")
            if bad:
                run.fail("ensemble-run-raises", f"{len(bad)} of {R} runs raised: {bad[0]['err']}", **what)
                continue
            run.case(key=("logz", str(cfg), npart), nontrivial=True)
            lz = [r["logz"] for r in res]
            e, se = ens.stats(lz, ens.TARGETS["interior"]["logz"])
            errs[npart] = (e, se)
            run.extra.setdefault("ensemble", []).append(dict(cfg=str(cfg), n_particles=npart, logz_err=round(e, 4), se=round(se, 4)))
            allowance = 0.15 if npart == 32 else 0.08
            if abs(e) > 6 * se + allowance:
                run.fail("evidence-biased", f"over {R} seeds with {npart} particles: mean log-evidence error {e:+.3f} (se {se:.3f})", **what)
            # independence across seeds: distinct seeds must not replay the same run
            if len({round(v, 12) for v in lz}) < len(lz):
                run.fail("seeded-runs-replay", "two differently seeded runs returned the same evidence to 12 digits", **what)
        if 32 in errs and 128 in errs:
            # the error must not persist when the particle count is increased
            e32, s32 = errs[32]
            e128, s128 = errs[128]
            if abs(e128) > 6 * s128 + 0.08 and abs(e128) > 0.7 * abs(e32):
                run.fail("evidence-bias-persists", f"log-evidence error {e32:+.3f} at N=32 and {e128:+.3f} at N=128", cfg=cfg)
    # half-supported likelihood: the warm-up correction must enter the evidence once (end-to-end view of C11)
    errs = {}
    for npart in (32, 128):
        cfg = dict(clustering=False)
        res = ens.run_ensemble("half", cfg, R, npart, 7300)
        what = dict(target="half-supported Gaussian (likelihood zero for x0 < 0)", cfg=cfg, runs=R, n_particles=npart, seeds="7300..")
        bad = [r for r in res if not r["ok"]]
        if bad:
            run.fail("ensemble-run-raises", f"{len(bad)} of {R} runs raised: {bad[0]['err']}", **what)
            continue
        run.case(key=("logz-half", npart), nontrivial=True)
        e, se = ens.stats([r["logz"] for r in res], ens.TARGETS["half"]["logz"])
        errs[npart] = e
        run.extra["ensemble"].append(dict(cfg="half-supported", n_particles=npart, logz_err=round(e, 4), se=round(se, 4)))
        if abs(e) > 6 * se + (0.15 if npart == 32 else 0.08):
            run.fail("evidence-biased", f"half-supported target, {R} seeds, {npart} particles: mean log-evidence error {e:+.3f} (se {se:.3f})", **what)
    independence_probe(run)
    run.sample(dict(kind="ensemble", first=run.extra["ensemble"][0]))


def independence_probe(run):
    """Two differently seeded runs with clustering: the global stream right after each training step must differ between the
    runs (a training step that resets the stream to a constant makes every later resampling/MCMC draw common to all runs)."""
    import warnings
    from tempest import Sampler
    import tempest.steps.train as tr
    prints = {}
    orig = tr.Trainer.run

    for sd in (11, 12):
        rec = []

        def wrapped(self, weights, _rec=rec):
            out = orig(self, weights)
            if self.state.get_current("beta") > 0:
                st = np.random.get_state()
                _rec.append((int(st[2]), tuple(int(v) for v in st[1][:8])))
            return out
        tr.Trainer.run = wrapped
        try:
            with warnings.catch_warnings():
                warnings.simplefilter("ignore")
                s = Sampler(ens.pt, ens.ll_interior, n_dim=2, n_particles=24, random_state=sd, clustering=True)
                s.run(n_total=48, progress=False)
        finally:
            tr.Trainer.run = orig
        prints[sd] = rec
    run.case(key=("independence", 11, 12), nontrivial=len(prints[11]) > 1)
    common = set(prints[11]) & set(prints[12])
    if common or len(set(prints[11])) < len(prints[11]):
        run.fail("stream-reset-to-constant", f"after {len(common)} training steps the global NumPy stream is in the same state in runs "
                 f"seeded 11 and 12 (and repeats within a run: {len(prints[11]) - len(set(prints[11]))}): later draws are common to all runs",
                 seeds=[11, 12], cfg=dict(clustering=True, n_particles=24))


def main(tier, seed):
    run = Run(PID, tier, seed)
    run.rule = ("proof obligations (identities and seeding-trace facts tied to the generated code) + validation: seeded ensembles "
                "(24 quick / 96 thorough runs, seeds 7000..) on a Gaussian with analytically known evidence at N=32 and N=128 for "
                "tpCN/mult/no clustering and RWM/syst/clustering (more cells thorough); mean log-evidence error within 6 "
                "standard errors plus a finite-particle allowance (0.15 / 0.08), not persisting from N=32 to N=128, and distinct "
                "seeds giving distinct results. The ensemble is a validation; it is not a proof.")
    run.assumptions = [
        "PARTIAL: the 1/sqrt(R) rate and the O(1/N) bias of plug-in normalisers are not carried",
        "independence is carried in trace form (no constant reseed on a run path; the stream is the seed's own), not as a statistical statement",
    ]
    try:
        translate()
        run.obligation("translate:all generated pieces used by C02", True)
    except TranslateError as e:
        run.obligation("translate:all generated pieces used by C02", False, str(e))
    run.prove("Props/C02.v", link_rels=["Link/MIS.v", "Link/Posterior.v", "Link/Seeding.v"], allowed_axioms=STDLIB_AXIOMS_REALS)
    run.prove("Props/C02W.v", link_rels=["Link/Warmup.v"])
    try:
        validate(run, tier)
    except Exception:
        import traceback
        run.broken.append(("harness-exception", traceback.format_exc()[-1500:]))
    run.finish(search=None)
