"""C02 — reported log-evidence is consistent and independent across seeded runs (partial proof + ensemble validation)."""
import math

import numpy as np

from common import STDLIB_AXIOMS_REALS, Run, TranslateError
import c04
import c09
import c11
import c05
import c03
import c06
import c12
import c13
import ensemble as ens

PID = "C02"


def translate():
    c04.translate(); c12.translate(); c09.translate(); c11.translate(); c05.translate(); c03.translate(); c06.translate(); c13.translate()


def validate(run, tier):
    """Cells: (configuration, particle count, number of seeded runs). The N=32 cells are a coarse sanity check (finite-particle
    allowance 0.10); the N=128 cells have 192 runs so that a persistent bias of a few per cent in Z is visible
    (4 standard errors + 0.03)."""
    base = [dict(clustering=False), dict(clustering=True, sample="rwm", resample="syst")]
    # a tight volume-variation target makes the schedule wait at a temperature for several iterations (dynamic mode)
    cells = [(c, 32, 24) for c in base] + [(c, 128, 192) for c in base] + [(dict(clustering=False, volume_variation=0.02), 64, 48)] \
        + [(dict(clustering=False, pool_kind="scramble"), 64, 48)]     # a user pool whose workers finish out of order
    if tier != "quick":
        more = [dict(clustering=True), dict(clustering=False, sample="rwm"), dict(clustering=True, cluster_every=2),
                dict(clustering=False, sample="rwm", resample="mult", volume_variation=0.5)]
        cells += [(c, 32, 96) for c in more] + [(c, 128, 192) for c in more] + [(c, 512, 96) for c in base]
    errs = {}
    for cfg, npart, R in cells:
        res = ens.run_ensemble("interior", cfg, R, npart, 7000)
        bad = [r for r in res if not r["ok"]]
        what = dict(target="interior", cfg=cfg, runs=R, n_particles=npart, seeds="7000..")
        if bad:
            run.fail("ensemble-run-raises", f"{len(bad)} of {R} runs raised: {bad[0]['err']}", **what)
            continue
        run.case(key=("logz", str(cfg), npart), nontrivial=True)
        lz = [r["logz"] for r in res]
        e, se = ens.stats(lz, ens.TARGETS["interior"]["logz"])
        errs[(str(cfg), npart)] = (e, se)
        run.extra.setdefault("ensemble", []).append(dict(cfg=str(cfg), n_particles=npart, runs=R, logz_err=round(e, 4), se=round(se, 4)))
        allowance = 0.10 if npart == 32 else (0.05 if npart == 64 else 0.03)
        if abs(e) > 4 * se + allowance:
            run.fail("evidence-biased", f"over {R} seeds with {npart} particles: mean log-evidence error {e:+.3f} (se {se:.3f})", **what)
        if cfg.get("pool_kind"):
            # the same seeds without the pool: how the likelihood is evaluated must not move the estimate (paired comparison)
            ref = ens.run_ensemble("interior", {k_: v_ for k_, v_ in cfg.items() if k_ != "pool_kind"}, R, npart, 7000)
            if all(r_["ok"] for r_ in ref) and len(ref) == len(res):
                dl = np.array([a_["logz"] - b_["logz"] for a_, b_ in zip(res, ref)])
                sd = float(np.std(dl) / math.sqrt(len(dl)))
                run.extra["ensemble"][-1]["paired_diff_to_no_pool"] = [round(float(np.mean(dl)), 4), round(sd, 4)]
                if abs(float(np.mean(dl))) > 4 * sd + 1e-9:
                    run.fail("evidence-biased", f"over {R} seeds with {npart} particles: evaluating the likelihood through a user pool whose workers finish out "
                             f"of order moves the mean log-evidence by {float(np.mean(dl)):+.3f} (se {sd:.3f}) against the same seeds without the pool", **what)
        # independence across seeds: distinct seeds must not replay the same run
        if len({round(v, 12) for v in lz}) < len(lz):
            run.fail("seeded-runs-replay", "two differently seeded runs returned the same evidence to 12 digits", **what)
    R = 24 if tier == "quick" else 96
    # half-supported likelihood: the warm-up correction must enter the evidence once (end-to-end view of C11)
    errs = {}
    for npart, R in ((32, R), (128, 4 * R)):
        cfg = dict(clustering=False)
        res = ens.run_ensemble("half", cfg, R, npart, 7300)
        what = dict(target="half-supported Gaussian (likelihood zero for x0 < 0)", cfg=cfg, runs=R, n_particles=npart, seeds="7300..")
        bad = [r for r in res if not r["ok"]]
        if bad:
            run.fail("ensemble-run-raises", f"{len(bad)} of {R} runs raised: {bad[0]['err']}", **what)
            continue
        run.case(key=("logz-half", npart), nontrivial=True)
        e, se = ens.stats([r["logz"] for r in res], ens.TARGETS["half"]["logz"])
        errs[npart] = e
        run.extra["ensemble"].append(dict(cfg="half-supported", n_particles=npart, logz_err=round(e, 4), se=round(se, 4)))
        if abs(e) > 4 * se + (0.15 if npart == 32 else 0.04):
            run.fail("evidence-biased", f"half-supported target, {R} seeds, {npart} particles: mean log-evidence error {e:+.3f} (se {se:.3f})", **what)
    # a posterior in the corner of the cube with the coordinates declared periodic / reflective: both kernels
    for tname, cfg in (("corner_periodic", dict(clustering=False)), ("corner_reflective", dict(clustering=False)),
                       ("corner_reflective", dict(clustering=False, sample="rwm")))[:2 if tier == "quick" else 3]:
        npart, Rc = 64, 48
        res = ens.run_ensemble(tname, cfg, Rc, npart, 7800)
        what = dict(target=tname, cfg=cfg, runs=Rc, n_particles=npart, seeds="7800..")
        bad = [r for r in res if not r["ok"]]
        if bad:
            run.fail("ensemble-run-raises", f"{len(bad)} of {Rc} runs raised: {bad[0]['err']}", **what)
            continue
        run.case(key=("logz", tname, str(cfg)), nontrivial=True)
        e, se = ens.stats([r["logz"] for r in res], ens.TARGETS[tname]["logz"])
        run.extra["ensemble"].append(dict(cfg=f"{tname} {cfg}", n_particles=npart, runs=Rc, logz_err=round(e, 4), se=round(se, 4)))
        if abs(e) > 4 * se + 0.06:
            run.fail("evidence-biased", f"{tname}, {Rc} seeds, {npart} particles: mean log-evidence error {e:+.3f} (se {se:.3f})", **what)
    # four dimensions, random-walk kernel, multinomial resampling (the kernel takes few local steps: what resampling hands it matters);
    # and a strongly correlated posterior with the default kernel
    for tname, cfg, npart, Rc in (("interior4", dict(clustering=False, sample="rwm", resample="mult"), 128, 96),
                                  ("corr", dict(clustering=False), 128, 96)):
        res = ens.run_ensemble(tname, cfg, Rc, npart, 7900)
        what = dict(target=tname, cfg=cfg, runs=Rc, n_particles=npart, seeds="7900..")
        bad = [r for r in res if not r["ok"]]
        if bad:
            run.fail("ensemble-run-raises", f"{len(bad)} of {Rc} runs raised: {bad[0]['err']}", **what)
            continue
        run.case(key=("logz", tname, str(cfg)), nontrivial=True)
        e, se = ens.stats([r["logz"] for r in res], ens.TARGETS[tname]["logz"])
        run.extra["ensemble"].append(dict(cfg=f"{tname} {cfg}", n_particles=npart, runs=Rc, logz_err=round(e, 4), se=round(se, 4)))
        if abs(e) > 4 * se + 0.05:
            run.fail("evidence-biased", f"{tname}, {Rc} seeds, {npart} particles: mean log-evidence error {e:+.3f} (se {se:.3f})", **what)
    # a bimodal target (mode masses 0.3 / 0.7) with clustering: the evidence is the sum over the modes
    for npart, Rb in ((64, 48),) if tier == "quick" else ((64, 96), (256, 96)):
        cfg = dict(clustering=True)
        res = ens.run_ensemble("bimodal", cfg, Rb, npart, 7600)
        what = dict(target="bimodal (0.3 / 0.7)", cfg=cfg, runs=Rb, n_particles=npart, seeds="7600..")
        bad = [r for r in res if not r["ok"]]
        if bad:
            run.fail("ensemble-run-raises", f"{len(bad)} of {Rb} runs raised: {bad[0]['err']}", **what)
            continue
        run.case(key=("logz-bimodal", npart), nontrivial=True)
        e, se = ens.stats([r["logz"] for r in res], ens.TARGETS["bimodal"]["logz"])
        run.extra["ensemble"].append(dict(cfg="bimodal, clustering", n_particles=npart, runs=Rb, logz_err=round(e, 4), se=round(se, 4)))
        if abs(e) > 4 * se + 0.05:
            run.fail("evidence-biased", f"bimodal target, {Rb} seeds, {npart} particles: mean log-evidence error {e:+.3f} (se {se:.3f})", **what)
    independence_probe(run)
    run.sample(dict(kind="ensemble", first=run.extra["ensemble"][0]))


def exact_history_evidence(run):
    """A history of exact draws with UNEQUAL batch sizes (as after resuming with another n_particles), each batch with its exact
    normaliser: the evidence estimate at beta = 1 must be the true evidence within Monte-Carlo error."""
    from tempest.state_manager import StateManager
    nr = np.random.RandomState(4711)
    S = ens.S
    st = StateManager(2)
    batches = [(0.25, 2000), (0.6, 500), (1.0, 40000)]
    for it, (b, n) in enumerate(batches, 1):
        x = nr.randn(3 * n, 2) * S / math.sqrt(b)
        x = x[np.all(np.abs(x) < 5.0, axis=1)][:n]
        st.update_current({"u": (x + 5.0) / 10.0, "x": x, "logl": -0.5 * np.sum(x ** 2, axis=1) / S ** 2, "beta": b,
                           "logz": math.log(2 * math.pi * S ** 2 / b / 100.0), "iter": it})
        st.commit_current_to_history()
    logw, lz = st.compute_logw_and_logz(1.0, normalize=False)
    w = np.exp(logw - np.max(logw))
    rel_se = float(np.std(w) / np.mean(w) / math.sqrt(len(w)))
    true = math.log(2 * math.pi * S ** 2 / 100.0)
    run.case(key=("exact-history-evidence",), nontrivial=True)
    run.extra["exact_history_evidence"] = dict(batches=batches, logz=round(float(lz), 5), true=round(true, 5), rel_se=round(rel_se, 5))
    if abs(float(lz) - true) > 6 * rel_se + 1e-3:
        run.fail("evidence-biased", f"history of exact draws with batch sizes {[n for _, n in batches]}: log-evidence {float(lz):.4f}, truth {true:.4f} "
                 f"(relative se {rel_se:.4f})", probe="exact draws, unequal batch sizes", generator="RandomState(4711)")


def independence_probe(run):
    """Two differently seeded runs with clustering: the global stream right after each training step must differ between the
    runs (a training step that resets the stream to a constant makes every later resampling/MCMC draw common to all runs)."""
    import warnings
    from tempest import Sampler
    import tempest.steps.train as tr
    prints = {}
    rows_of = {}
    orig = tr.Trainer.run

    for sd in (11, 12):
        rec = []

        def wrapped(self, weights, _rec=rec):
            out = orig(self, weights)
            if self.state.get_current("beta") > 0:
                st = np.random.get_state()
                _rec.append((int(st[2]), tuple(int(v) for v in st[1][:8])))
            return out
        tr.Trainer.run = wrapped
        try:
            with warnings.catch_warnings():
                warnings.simplefilter("ignore")
                s = Sampler(ens.pt, ens.ll_interior, n_dim=2, n_particles=24, random_state=sd, clustering=True)
                s.run(n_total=48, progress=False)
        finally:
            tr.Trainer.run = orig
        prints[sd] = rec
        rows_of[sd] = {np.ascontiguousarray(r).tobytes() for batch in s.state._history["u"] for r in batch}
    shared = rows_of[11] & rows_of[12]
    if shared:
        run.fail("runs-share-random-draws", f"runs seeded 11 and 12 contain {len(shared)} bit-identical particles: differently seeded runs "
                 f"consume overlapping parts of one random stream", seeds=[11, 12], cfg=dict(clustering=True, n_particles=24))
    run.case(key=("independence", 11, 12), nontrivial=len(prints[11]) > 1)
    common = set(prints[11]) & set(prints[12])
    if common or len(set(prints[11])) < len(prints[11]):
        run.fail("stream-reset-to-constant", f"after {len(common)} training steps the global NumPy stream is in the same state in runs "
                 f"seeded 11 and 12 (and repeats within a run: {len(prints[11]) - len(set(prints[11]))}): later draws are common to all runs",
                 seeds=[11, 12], cfg=dict(clustering=True, n_particles=24))


def main(tier, seed):
    run = Run(PID, tier, seed)
    run.rule = ("proof obligations (identities and seeding-trace facts tied to the generated code) + validation: seeded ensembles "
                "(seeds 7000..) on a Gaussian with analytically known evidence: 24 runs at N=32 and 192 runs at N=128 for "
                "tpCN/mult/no clustering and RWM/syst/clustering (more cells, N=512 thorough); mean log-evidence error within 4 "
                "standard errors plus a finite-particle allowance (0.10 at N=32, 0.03 at N=128); a half-supported target "
                "(warm-up correction); the global stream state after each training step differs between seeds; distinct "
                "seeds giving distinct results. The ensemble is a validation; it is not a proof.")
    run.assumptions = [
        "PARTIAL: the 1/sqrt(R) rate and the O(1/N) bias of plug-in normalisers are not carried",
        "independence is carried in trace form (no constant reseed on a run path; the stream is the seed's own), not as a statistical statement",
    ]
    try:
        translate()
        run.obligation("translate:all generated pieces used by C02", True)
    except Exception as e:  # fail closed: anything the translator cannot digest
        run.obligation("translate:all generated pieces used by C02", False, str(e))
    run.prove("Props/C02.v", link_rels=["Link/MIS.v", "Link/Posterior.v", "Link/Seeding.v"], allowed_axioms=STDLIB_AXIOMS_REALS)
    run.prove("Props/C02W.v", link_rels=["Link/Warmup.v", "Link/Schedule.v", "Link/Kernel.v", "Link/Shift.v", "Link/Resample.v", "Link/Dispatch.v"], allowed_axioms=STDLIB_AXIOMS_REALS)
    try:
        exact_history_evidence(run)
        validate(run, tier)
    except Exception:
        import traceback
        run.broken.append(("harness-exception", traceback.format_exc()[-1500:]))
    run.extra["runs_aborted_by_the_listed_C14_finding"] = list(ens.ABORTED_BY_C14)
    if len(ens.ABORTED_BY_C14) > 8:
        run.fail("too-many-aborted-runs", f"{len(ens.ABORTED_BY_C14)} ensemble runs were aborted by LinAlgError in ModeStatistics.from_particles", runs=ens.ABORTED_BY_C14[:10])
    run.finish(search=None)
