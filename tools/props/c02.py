"""C02 — reported log-evidence is consistent and independent across seeded runs (partial proof + ensemble validation)."""
import math

import numpy as np

from common import STDLIB_AXIOMS_REALS, Run, TranslateError
import c04
import c09
import c12
import ensemble as ens

PID = "C02"


def translate():
    c04.translate(); c12.translate(); c09.translate()


def validate(run, tier):
    R = 24 if tier == "quick" else 96
    cfgs = [dict(clustering=False), dict(clustering=True, sample="rwm", resample="syst")]
    if tier != "quick":
        cfgs += [dict(clustering=True), dict(clustering=False, sample="rwm"), dict(clustering=True, cluster_every=2)]
    for cfg in cfgs:
        errs = {}
        for npart in (32, 128):
            res = ens.run_ensemble("interior", cfg, R, npart, 7000)
            bad = [r for r in res if not r["ok"]]
            what = dict(target="interior", cfg=cfg, runs=R, n_particles=npart, seeds="7000..")
            if bad:
                run.fail("ensemble-run-raises", f"{len(bad)} of {R} runs raised: {bad[0]['err']}", **what)
                continue
            run.case(key=("logz", str(cfg), npart), nontrivial=True)
            lz = [r["logz"] for r in res]
            e, se = ens.stats(lz, ens.TARGETS["interior"]["logz"])
            errs[npart] = (e, se)
            run.extra.setdefault("ensemble", []).append(dict(cfg=str(cfg), n_particles=npart, logz_err=round(e, 4), se=round(se, 4)))
            allowance = 0.15 if npart == 32 else 0.08
            if abs(e) > 6 * se + allowance:
                run.fail("evidence-biased", f"over {R} seeds with {npart} particles: mean log-evidence error {e:+.3f} (se {se:.3f})", **what)
            # independence across seeds: distinct seeds must not replay the same run
            if len({round(v, 12) for v in lz}) < len(lz):
                run.fail("seeded-runs-replay", "two differently seeded runs returned the same evidence to 12 digits", **what)
        if 32 in errs and 128 in errs:
            # the error must not persist when the particle count is increased
            e32, s32 = errs[32]
            e128, s128 = errs[128]
            if abs(e128) > 6 * s128 + 0.08 and abs(e128) > 0.7 * abs(e32):
                run.fail("evidence-bias-persists", f"log-evidence error {e32:+.3f} at N=32 and {e128:+.3f} at N=128", cfg=cfg)
    # half-supported likelihood: evidence must not double-count the warm-up correction (C11) -- end-to-end
    run.sample(dict(kind="ensemble", first=run.extra["ensemble"][0]))


def main(tier, seed):
    run = Run(PID, tier, seed)
    run.rule = ("proof obligations (identities and seeding-trace facts tied to the generated code) + validation: seeded ensembles "
                "(24 quick / 96 thorough runs, seeds 7000..) on a Gaussian with analytically known evidence at N=32 and N=128 for "
                "tpCN/mult/no clustering and RWM/syst/clustering (more cells thorough); mean log-evidence error within 6 "
                "standard errors plus a finite-particle allowance (0.15 / 0.08), not persisting from N=32 to N=128, and distinct "
                "seeds giving distinct results. The ensemble is a validation; it is not a proof.")
    run.assumptions = [
        "PARTIAL: the 1/sqrt(R) rate and the O(1/N) bias of plug-in normalisers are not carried",
        "independence is carried in trace form (no constant reseed on a run path; the stream is the seed's own), not as a statistical statement",
    ]
    try:
        translate()
        run.obligation("translate:all generated pieces used by C02", True)
    except TranslateError as e:
        run.obligation("translate:all generated pieces used by C02", False, str(e))
    run.prove("Props/C02.v", link_rels=["Link/MIS.v", "Link/Posterior.v", "Link/Seeding.v"], allowed_axioms=STDLIB_AXIOMS_REALS)
    try:
        validate(run, tier)
    except Exception:
        import traceback
        run.broken.append(("harness-exception", traceback.format_exc()[-1500:]))
    run.finish(search=None)
