"""Shared machinery for the /verif checks: Coq build + evaluation, float/rational
literals, verdict protocol, evidence writer, known findings."""
import ast
import fcntl
import json
import os
import re
import shutil
import subprocess
import sys
import tempfile
import time
from fractions import Fraction
from pathlib import Path

VERIF = Path("/verif")
REPO = Path(os.environ.get("TEMPEST_REPO_OVERRIDE", "/repo"))  # override only for experiments on scratch worktrees
COQ = VERIF / "coq"
SCRATCH_ROOT = VERIF / ".scratch"
GUARD = "TEMPEST_VERIF"

os.environ.setdefault("PYTHONHASHSEED", "0")
os.environ[GUARD] = "1"
if str(REPO) not in sys.path:
    sys.path.insert(0, str(REPO))

FORBIDDEN = re.compile(
    r"\b(Admitted|admit|Axiom|Axioms|Parameter|Parameters|Conjecture|Conjectures|"
    r"Unset\s+Guard|bypass_check|type-in-type|impredicative-set|Admit\s+Obligations|"
    r"Unset\s+Positivity|Unset\s+Universe)\b"
)

# axioms declared by the Coq standard library that a theorem over R / classical reals may use
# the standard library's specification axioms of the primitive floats (Coq.Floats.FloatAxioms), used through Flocq
STDLIB_AXIOMS_FLOATS = {"FloatAxioms.*"}
STDLIB_AXIOMS_REALS = {
    "ClassicalDedekindReals.sig_forall_dec",
    "ClassicalDedekindReals.sig_not_dec",
    "FunctionalExtensionality.functional_extensionality_dep",
    "Classical_Prop.classic",
}


# ----------------------------------------------------------------------------- shell
def sh(cmd, timeout=600, cwd=None, env=None):
    t0 = time.time()
    try:
        p = subprocess.run(
            cmd, shell=isinstance(cmd, str), cwd=cwd, env=env, timeout=timeout,
            stdout=subprocess.PIPE, stderr=subprocess.STDOUT, text=True,
        )
        return p.returncode, p.stdout, time.time() - t0
    except subprocess.TimeoutExpired as e:
        out = e.stdout if isinstance(e.stdout, str) else (e.stdout or b"").decode("utf8", "replace")
        return 124, out + "\n[timeout]", time.time() - t0


class CoqLock:
    """Serialise .vo builds: checks may be launched concurrently."""

    def __enter__(self):
        SCRATCH_ROOT.mkdir(exist_ok=True)
        self.f = open(SCRATCH_ROOT / "coq.lock", "w")
        fcntl.flock(self.f, fcntl.LOCK_EX)
        return self

    def __exit__(self, *a):
        fcntl.flock(self.f, fcntl.LOCK_UN)
        self.f.close()


def write_if_changed(path: Path, text: str) -> bool:
    path.parent.mkdir(parents=True, exist_ok=True)
    if path.exists() and path.read_text() == text:
        return False
    path.write_text(text)
    return True


def ensure_makefile():
    mk = COQ / "Makefile"
    proj = COQ / "_CoqProject"
    files = sorted(str(p.relative_to(COQ)) for p in COQ.rglob("*.v") if ".scratch" not in str(p))
    want = proj.read_text().split("# files")[0].rstrip() + "\n# files\n" + "\n".join(files) + "\n"
    changed = write_if_changed(proj, want)
    if changed or not mk.exists():
        rc, out, _ = sh("coq_makefile -f _CoqProject -o Makefile", cwd=COQ)
        if rc != 0:
            raise RuntimeError("coq_makefile failed:\n" + out)


def coq_make(targets, timeout=1500, jobs=8):
    """Full .vo build of the given targets (relative to coq/). Returns (ok, log)."""
    with CoqLock():
        ensure_makefile()
        rc, out, _ = sh(
            f"timeout {timeout} make -j{jobs} " + " ".join(targets), timeout=timeout + 30, cwd=COQ
        )
    return rc == 0, out


def coqc_file(relpath, timeout=600):
    """Compile one file of the project directly, returning its stdout (Print Assumptions...)."""
    with CoqLock():
        rc, out, _ = sh(
            f"timeout {timeout} coqc -Q . Tempest -w -notation-overridden,-deprecated-hint-without-locality {relpath}",
            timeout=timeout + 30, cwd=COQ,
        )
    return rc == 0, out


class Scratch:
    def __init__(self, tag):
        SCRATCH_ROOT.mkdir(exist_ok=True)
        self.dir = Path(tempfile.mkdtemp(prefix=f"{tag}.", dir=SCRATCH_ROOT))

    def cleanup(self):
        shutil.rmtree(self.dir, ignore_errors=True)


def coq_eval_many(scratch: Scratch, sources, timeout=900, jobs=12):
    """sources: list of Coq source texts (each prints with Eval vm_compute).
    Returns list of (ok, stdout) in order. Runs shards in parallel."""
    names = []
    for k, src in enumerate(sources):
        n = f"cases_{len(list(scratch.dir.glob('cases_*.v')))}_{k}"
        (scratch.dir / f"{n}.v").write_text(src)
        names.append(n)
    procs = []
    results = [None] * len(names)
    idx = 0
    running = []
    env = dict(os.environ)
    while idx < len(names) or running:
        while idx < len(names) and len(running) < jobs:
            n = names[idx]
            outf = open(scratch.dir / f"{n}.out", "w")
            p = subprocess.Popen(
                ["timeout", str(timeout), "coqc", "-Q", str(COQ), "Tempest", "-w", "-all", f"{n}.v"],
                cwd=scratch.dir, stdout=outf, stderr=subprocess.STDOUT, text=True, env=env,
            )
            p._outf = outf
            p._outpath = scratch.dir / f"{n}.out"
            running.append((idx, p))
            idx += 1
        still = []
        for (i, p) in running:
            if p.poll() is None:
                still.append((i, p))
            else:
                p._outf.close()
                results[i] = (p.returncode == 0, p._outpath.read_text())
        running = still
        if running:
            time.sleep(0.05)
    return results


_tok = re.compile(r"\[|\]|;|-?\d+|true|false|None|Some|\(|\)|,")


def parse_evals(stdout):
    """Parse each `= value : type` block printed by Eval into nested python lists of ints/bools.
    Supports lists, pairs, Z/nat numerals (with %Z), bools, option."""
    blocks = re.findall(r"^\s*=\s(.*?)\n\s*:\s", stdout, flags=re.S | re.M)
    out = []
    for b in blocks:
        b = re.sub(r"%[A-Za-z_]+", "", b)
        toks = _tok.findall(b)
        pos = [0]

        def parse():
            t = toks[pos[0]]
            pos[0] += 1
            if t == "[":
                items = []
                if toks[pos[0]] == "]":
                    pos[0] += 1
                    return items
                while True:
                    items.append(parse())
                    t2 = toks[pos[0]]
                    pos[0] += 1
                    if t2 == "]":
                        return items
            if t == "(":
                items = [parse()]
                while toks[pos[0]] == ",":
                    pos[0] += 1
                    items.append(parse())
                assert toks[pos[0]] == ")", toks[pos[0]:pos[0] + 5]
                pos[0] += 1
                return items[0] if len(items) == 1 else tuple(items)
            if t == "true":
                return True
            if t == "false":
                return False
            if t == "None":
                return None
            if t == "Some":
                return ("Some", parse())
            return int(t)

        out.append(parse())
    return out


# ----------------------------------------------------------------------------- literals
def fhex(x: float) -> str:
    """binary64 -> Coq PrimFloat literal (exact)."""
    x = float(x)
    if x != x:
        return "PrimFloat.nan"
    if x == float("inf"):
        return "PrimFloat.infinity"
    if x == float("-inf"):
        return "PrimFloat.neg_infinity"
    h = x.hex()
    if h.startswith("-"):
        return f"(-{h[1:]})%float"
    return f"({h})%float"


def flist(xs) -> str:
    return "[" + "; ".join(fhex(x) for x in xs) + "]" if len(xs) else "(@nil float)"


def qlit(x) -> str:
    fr = Fraction(x) if not isinstance(x, Fraction) else x
    return f"({fr.numerator} # {fr.denominator})"


def qlist(xs) -> str:
    return "[" + "; ".join(qlit(x) for x in xs) + "]%Q" if len(xs) else "(@nil Q)"


def natlist(xs) -> str:
    return "[" + "; ".join(str(int(x)) for x in xs) + "]%nat" if len(xs) else "(@nil nat)"


def zlist(xs) -> str:
    return "[" + "; ".join(f"({int(x)})" for x in xs) + "]%Z" if len(xs) else "(@nil Z)"


# ----------------------------------------------------------------------------- findings
def load_known():
    p = VERIF / "known_findings.json"
    if not p.exists():
        return {"findings": [], "fixed": []}
    return json.loads(p.read_text())


# ----------------------------------------------------------------------------- run/verdict
class Run:
    """One check run: collects proof obligations, correspondence results and failing
    inputs found on the implementation, then applies the verdict protocol."""

    def __init__(self, pid, tier, seed, level="proof"):
        self.pid, self.tier, self.seed, self.level = pid, tier, seed, level
        self.t0 = time.time()
        self.obligations = []  # (name, ok, detail)
        self.trusted = []
        self.assumptions = []
        self.evaluations = 0
        self.nontrivial = set()
        self.samples = []
        self.rule = ""
        self.dist = {}
        self.disagreements = []  # correspondence: dict(case=..., impl=..., model=...)
        self.failures = []  # property failures on the implementation: dict(key=..., what=..., input=...)
        self.broken = []  # (what, detail) - broken proof / translation / correspondence infrastructure
        self.notes = []
        self.checker_cmd = ""
        self.extra = {}
        self.scratch = Scratch(pid)

    # ---- proofs
    def prove(self, props_rel, link_rels=(), extra_targets=(), allowed_axioms=frozenset(), timeout=1500):
        """Build the .vo closure of Props/<pid>.v (+ link files), re-run coqc on the Props
        file to collect Print Assumptions, and record one obligation per Theorem/Lemma."""
        targets = [r.replace(".v", ".vo") for r in (*link_rels, *extra_targets, props_rel)]
        self.checker_cmd = (
            f"cd {COQ} && coq_makefile -f _CoqProject -o Makefile && make {' '.join(targets)} "
            f"&& coqc -Q . Tempest {props_rel}   # Coq 8.16.1, full .vo build, vm_compute only"
        )
        bad = scan_forbidden()
        if bad:
            self.broken.append(("forbidden-construct", "; ".join(bad[:5])))
        ok, log = coq_make(targets, timeout=timeout)
        names = []
        for rel in (*link_rels, props_rel):
            src = (COQ / rel).read_text()
            for m in re.finditer(r"^\s*(?:Theorem|Lemma|Corollary|Example)\s+([A-Za-z0-9_']+)", src, flags=re.M):
                names.append((rel, m.group(1), src[: m.start()].count("\n") + 1))
        if not ok:
            m = re.search(r'File "\./([^"]+)", line (\d+)', log)
            tail = "\n".join(log.strip().splitlines()[-25:])
            bad_file = m.group(1) if m else None
            bad_line = int(m.group(2)) if m else 0
            for rel, n, line in names:
                good = not (bad_file is None or rel == bad_file and line >= _stmt_start(COQ / rel, bad_line))
                if bad_file is not None and rel != bad_file:
                    # files after the failing one in the chain are not checked either
                    good = (list(dict.fromkeys(r for r, _, _ in names)).index(rel)
                            < list(dict.fromkeys(r for r, _, _ in names)).index(bad_file)) if bad_file in [r for r, _, _ in names] else False
                self.obligations.append((f"{rel}:{n}", good, "" if good else "not checked: build failed"))
            self.broken.append(("coq-build", tail))
            return False
        ok2, out = coqc_file(props_rel)
        if not ok2:
            self.broken.append(("coq-props", out[-2000:]))
        src = (COQ / props_rel).read_text()
        pa_names = [n.rstrip(".") for n in re.findall(r"Print Assumptions\s+([A-Za-z0-9_'.]+)", src)]
        blocks = re.split(r"(?=^Closed under the global context|^Axioms:)", out, flags=re.M)
        blocks = [b for b in blocks if b.startswith("Closed") or b.startswith("Axioms:")]
        ax_by_name = {}
        for n, b in zip(pa_names, blocks):
            if b.startswith("Closed"):
                ax_by_name[n] = []
            else:
                ax_by_name[n] = [a for a in re.findall(r"^([A-Za-z0-9_'.]+)\s*:", b, flags=re.M) if a != "Axioms"]
        for rel, n, line in names:
            axs = ax_by_name.get(n)
            detail = ""
            good = ok2
            if axs:
                unexpected = [a for a in axs if a not in allowed_axioms and not _is_primitive(a)
                              and not any(x.endswith("*") and a.startswith(x[:-1]) for x in allowed_axioms)]
                if unexpected:
                    good = False
                    detail = "unexpected axioms: " + ", ".join(unexpected)
                    self.broken.append(("axioms", f"{n}: {detail}"))
            self.obligations.append((f"{rel}:{n}", good, detail))
            if axs is not None:
                self.trusted.append(
                    f"Print Assumptions {n}: " + ("Closed under the global context" if not axs else ", ".join(axs))
                )
        missing = [n for _, n, _ in names if n not in ax_by_name and _ == props_rel] if False else []
        return ok2

    def obligation(self, name, ok, detail=""):
        self.obligations.append((name, bool(ok), detail))
        if not ok:
            self.broken.append((name, detail))

    # ---- coverage bookkeeping
    def case(self, key=None, nontrivial=True):
        self.evaluations += 1
        if nontrivial and key is not None:
            self.nontrivial.add(key)

    def count(self, k, n=1):
        self.dist[k] = self.dist.get(k, 0) + n

    def sample(self, s, limit=6):
        if len(self.samples) < limit:
            self.samples.append(s)

    def disagree(self, what, **kw):
        self.disagreements.append(dict(what=what, **kw))

    def fail(self, key, what, **inp):
        """A concrete failing input/state/history of the property on the implementation."""
        # A real run aborted by the listed one-point-cluster finding (LinAlgError inside ModeStatistics.from_particles) is the
        # business of C14 / C18, where it is listed with its reproducers; for every other property such a run is an inconclusive
        # case (everything it did before aborting has been checked), counted in the evidence, not a failure of that property.
        import traceback as _tb
        et, ev, tb = sys.exc_info()
        if ev is not None and type(ev).__name__ == "LinAlgError" and self.pid not in ("C14", "C18") \
                and key != "single-point-cluster-singular-scale":
            txt = "".join(_tb.format_exception(et, ev, tb))
            if "fit_mvstud" in txt and "from_particles" in txt:
                self.count("run aborted by the listed C14/C18 finding (LinAlgError in ModeStatistics.from_particles); inconclusive for this property")
                return
        self.failures.append(dict(key=key, what=what, input=inp))

    # ---- verdict
    def finish(self, search=None):
        known = load_known()
        kf = [f for f in known.get("findings", []) if f.get("property") == self.pid]
        exit_code = 0
        lines = []
        need_search = bool(self.broken or self.disagreements)
        listed_keys = {k.get("key") for k in kf}
        if need_search and search is not None and all(f["key"] in listed_keys for f in self.failures):
            try:
                search(self)
            except Exception as e:  # search is best effort
                self.notes.append(f"search raised {type(e).__name__}: {e}")
        unlisted = []
        listed = {}
        for f in self.failures:
            hit = next((k for k in kf if k.get("key") == f["key"]), None)
            if hit is not None:
                listed.setdefault(hit["key"], (hit, f))
            else:
                unlisted.append(f)
        for key, (hit, f) in listed.items():
            lines.append(f"KNOWN-FINDING: property={self.pid} {hit.get('what', f['what'])}")
        replay_dir = VERIF / "replays"
        viol = 0
        if unlisted:
            replay_dir.mkdir(exist_ok=True)
            rp = replay_dir / f"{self.pid}_{self.tier}_{self.seed}.json"
            rp.write_text(json.dumps(dict(property=self.pid, kind="failing-input", failures=unlisted[:20],
                                          broken=[list(b) for b in self.broken][:10],
                                          disagreements=self.disagreements[:10]), indent=1, default=str))
            lines.append(f"VIOLATION property={self.pid} replay={rp}")
            exit_code = 1
            viol = len(unlisted)
        elif need_search and not (listed and self._explained_by_known(listed)):
            replay_dir.mkdir(exist_ok=True)
            rp = replay_dir / f"{self.pid}_{self.tier}_{self.seed}.json"
            rp.write_text(json.dumps(dict(property=self.pid, kind="unchecked-obligation",
                                          broken=[list(b) for b in self.broken][:20],
                                          disagreements=self.disagreements[:20],
                                          note="a theorem, translation or correspondence no longer checks; "
                                               "no failing input of the property was found on the implementation"),
                                     indent=1, default=str))
            lines.append(f"VIOLATION property={self.pid} replay={rp} no-failing-input-found")
            exit_code = 1
            viol = 1
        self._write_evidence(viol, lines)
        for l in lines:
            print(l)
        n_ok = sum(1 for _, ok, _ in self.obligations if ok)
        print(f"[{self.pid}] tier={self.tier} seed={self.seed} obligations={n_ok}/{len(self.obligations)} "
              f"evaluations={self.evaluations} nontrivial={len(self.nontrivial)} "
              f"disagreements={len(self.disagreements)} failures={len(self.failures)} "
              f"wall={time.time() - self.t0:.1f}s exit={exit_code}")
        if self.broken:
            for w, d in self.broken[:5]:
                print(f"[{self.pid}] broken: {w}: {str(d)[:1500]}")
        for d in self.disagreements[:5]:
            print(f"[{self.pid}] disagreement: {json.dumps(d, default=str)[:1500]}")
        for f in self.failures[:5]:
            print(f"[{self.pid}] failing input: {json.dumps(f, default=str)[:1500]}")
        self.scratch.cleanup()
        sys.exit(exit_code)

    def _explained_by_known(self, listed):
        # broken obligations/disagreements are tolerated only when every one of them was
        # tagged as stemming from a listed finding by the property module
        return all(str(b[0]).startswith("known:") for b in self.broken) and all(
            d.get("known") for d in self.disagreements)

    def _write_evidence(self, viol, lines):
        n_ok = sum(1 for _, ok, _ in self.obligations if ok)
        cov = dict(
            obligations=len(self.obligations),
            discharged=n_ok,
            checker_cmd=self.checker_cmd or "n/a",
            trusted_base=self.trusted + [
                "Coq 8.16.1 kernel + vm_compute (no native_compute)",
                "tools/ (translator, correspondence harness, literal encoding) are trusted python",
            ],
            evaluations=self.evaluations,
            distinct_nontrivial=len(self.nontrivial),
            rule=self.rule,
            samples=self.samples or ["(no case generated)"],
            obligation_names=[dict(name=n, ok=ok, detail=d) for n, ok, d in self.obligations],
            distribution=self.dist,
            correspondence_disagreements=len(self.disagreements),
            failing_inputs=len(self.failures),
            verdict_lines=lines,
            notes=self.notes,
        )
        cov.update(self.extra)
        ev = dict(property_id=self.pid, tier=self.tier, seed=int(self.seed), level=self.level,
                  coverage=cov, assumptions=self.assumptions, wall_s=round(time.time() - self.t0, 2),
                  violations=viol)
        (VERIF / "evidence").mkdir(exist_ok=True)
        (VERIF / "evidence" / f"{self.pid}.json").write_text(json.dumps(ev, indent=1, default=str))


def _is_primitive(a):
    return a.startswith(("PrimFloat.", "Uint63.", "PrimInt63.", "FloatOps.", "PrimString."))


def _stmt_start(path, line):
    return line - 200  # any lemma declared within 200 lines before the error position may be the failing one


def scan_forbidden():
    bad = []
    for p in COQ.rglob("*.v"):
        txt = p.read_text()
        txt = re.sub(r"\(\*.*?\*\)", "", txt, flags=re.S)
        for i, line in enumerate(txt.splitlines(), 1):
            if FORBIDDEN.search(line):
                bad.append(f"{p.relative_to(COQ)}:{i}: {line.strip()[:80]}")
    return bad


# ----------------------------------------------------------------------------- python-ast helpers
class TranslateError(Exception):
    pass


def get_function(path: Path, qualname: str):
    """Return the ast.FunctionDef of `name` or `Class.name` in a source file."""
    tree = ast.parse(path.read_text())
    parts = qualname.split(".")
    body = tree.body
    node = None
    for part in parts:
        node = next((n for n in body if isinstance(n, (ast.FunctionDef, ast.ClassDef)) and n.name == part), None)
        if node is None:
            raise TranslateError(f"{path}: {qualname} not found")
        body = node.body
    return node


def strip_doc(body):
    if body and isinstance(body[0], ast.Expr) and isinstance(getattr(body[0], "value", None), ast.Constant) \
            and isinstance(body[0].value.value, str):
        return body[1:]
    return body


class ExprTr:
    """Fail-closed scalar expression translator: python expr -> Gallina over an Ops record `o`.
    `subst` maps ast.unparse(subexpr) -> Gallina text for leaves (names, calls, subscripts)."""

    BIN = {ast.Add: "o_add", ast.Sub: "o_sub", ast.Mult: "o_mul", ast.Div: "o_div"}

    def __init__(self, subst, consts=None, where=""):
        self.subst = {k.replace(" ", ""): v for k, v in subst.items()}
        self.consts = {k.replace(" ", ""): v for k, v in (consts or {}).items()}
        self.where = where

    def err(self, node, msg="unsupported"):
        raise TranslateError(f"{self.where}: line {getattr(node, 'lineno', '?')}: {msg}: {ast.unparse(node)}")

    def num(self, node):
        src = ast.unparse(node).replace(" ", "")
        if src in self.subst:
            return self.subst[src]
        if isinstance(node, ast.Constant) and isinstance(node.value, (int, float)) and not isinstance(node.value, bool):
            v = float(node.value)
            if v == 0.0:
                return "(o_zero o)"
            if v == 1.0:
                return "(o_one o)"
            if v == 0.5:
                return "(o_half o)"
            if src in self.consts:
                return self.consts[src]
            self.err(node, "numeric constant without a named parameter")
        if isinstance(node, ast.BinOp) and type(node.op) in self.BIN:
            return f"({self.BIN[type(node.op)]} o {self.num(node.left)} {self.num(node.right)})"
        if isinstance(node, ast.UnaryOp) and isinstance(node.op, ast.USub):
            return f"(o_sub o (o_zero o) {self.num(node.operand)})"
        if isinstance(node, ast.Call) and isinstance(node.func, ast.Name) and node.func.id == "abs" and len(node.args) == 1:
            return f"(o_abs o {self.num(node.args[0])})"
        if isinstance(node, ast.Call) and ast.unparse(node.func) in ("np.abs", "np.fabs") and len(node.args) == 1:
            return f"(o_abs o {self.num(node.args[0])})"
        self.err(node)

    def boolean(self, node):
        src = ast.unparse(node).replace(" ", "")
        if src in self.subst:
            return self.subst[src]
        if isinstance(node, ast.Compare) and len(node.ops) == 1:
            a, b = self.num(node.left), self.num(node.comparators[0])
            op = node.ops[0]
            if isinstance(op, ast.Gt):
                return f"(o_gtb o {a} {b})"
            if isinstance(op, ast.GtE):
                return f"(o_geb o {a} {b})"
            if isinstance(op, ast.Lt):
                return f"(o_ltb o {a} {b})"
            if isinstance(op, ast.LtE):
                return f"(o_leb o {a} {b})"
            if isinstance(op, ast.Eq):
                return f"(o_eqb o {a} {b})"
            if isinstance(op, ast.NotEq):
                return f"(negb (o_eqb o {a} {b}))"
            self.err(node)
        if isinstance(node, ast.BoolOp):
            parts = [self.boolean(v) for v in node.values]
            op = "&&" if isinstance(node.op, ast.And) else "||"
            r = parts[0]
            for p in parts[1:]:
                r = f"({r} {op} {p})"
            return r
        if isinstance(node, ast.UnaryOp) and isinstance(node.op, ast.Not):
            return f"(negb {self.boolean(node.operand)})"
        self.err(node)


class RExprTr:
    """Fail-closed translator python scalar expr -> Coq expression over R (Reals)."""
    BIN = {ast.Add: "+", ast.Sub: "-", ast.Mult: "*", ast.Div: "/"}
    FUN = {"np.log": "ln", "np.exp": "exp", "math.log": "ln", "math.exp": "exp", "np.sqrt": "sqrt"}

    def __init__(self, subst, where=""):
        self.subst = {k.replace(" ", ""): v for k, v in subst.items()}
        self.where = where

    def err(self, node, msg="unsupported"):
        raise TranslateError(f"{self.where}: line {getattr(node, 'lineno', '?')}: {msg}: {ast.unparse(node)}")

    def num(self, node):
        src = ast.unparse(node).replace(" ", "")
        if src in self.subst:
            return self.subst[src]
        if isinstance(node, ast.Constant) and isinstance(node.value, (int, float)) and not isinstance(node.value, bool):
            fr = Fraction(node.value)
            return f"({fr.numerator}/{fr.denominator})" if fr.denominator != 1 else f"({fr.numerator})"
        if isinstance(node, ast.BinOp) and type(node.op) in self.BIN:
            return f"({self.num(node.left)} {self.BIN[type(node.op)]} {self.num(node.right)})"
        if isinstance(node, ast.UnaryOp) and isinstance(node.op, ast.USub):
            return f"(- {self.num(node.operand)})"
        if isinstance(node, ast.BinOp) and isinstance(node.op, ast.Pow) and isinstance(node.right, ast.Constant) \
                and float(node.right.value) == 2.0:
            x = self.num(node.left)
            return f"({x} * {x})"
        if isinstance(node, ast.Call) and ast.unparse(node.func) in self.FUN and len(node.args) == 1 and not node.keywords:
            return f"({self.FUN[ast.unparse(node.func)]} {self.num(node.args[0])})"
        self.err(node)
