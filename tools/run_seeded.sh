#!/bin/bash
# apply every seeded change to /repo in turn, run its property's quick check, restore; one line per mutant (not a registered command)
cd /verif
out=${1:-/tmp/seeded_all.log}
: > "$out"
for d in seeded/*/; do
  m=$(basename $d); id=${m%%_*}
  r=$(tools/try_mutant.sh $id /verif/$d/patch.diff quick 2>&1 | grep -E "^VIOLATION|exit=" | tr '\n' ' ' | cut -c1-160)
  k=$(python3 -c "
import json,sys
try:
    r=json.load(open('/verif/replays/${id}_quick_0.json'))
    ks=[]
    for f in r.get('failures',[]):
        if f.get('key') not in ks: ks.append(f.get('key'))
    print('kind=%s keys=%s broken=%s disagreements=%d' % (r.get('kind'), ','.join(map(str,ks[:6])), ','.join(str(b)[:40] for b in r.get('broken',[])[:4]), len(r.get('disagreements',[]))))
except Exception as e: print('no replay', e)
" 2>&1 | cut -c1-400)
  echo "$m: $r | $k" >> "$out"
done
echo done >> "$out"
