#!/bin/bash
# apply every seeded change to /repo in turn, run its property's quick check, restore; one line per mutant (not a registered command)
cd /verif
out=${1:-/tmp/seeded_all.log}
: > "$out"
for d in seeded/*/; do
  m=$(basename $d); id=${m%%_*}
  r=$(tools/try_mutant.sh $id /verif/$d/patch.diff quick 2>&1 | grep -E "^VIOLATION|exit=" | tr '\n' ' ' | cut -c1-160)
  echo "$m: $r" >> "$out"
done
echo done >> "$out"
