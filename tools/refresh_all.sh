#!/bin/bash
# run every registered quick check on /repo as it is and print one line per check
cd /verif
for pid in $(python3 -c "import json;print(' '.join(c['property_id'] for c in json.load(open('MANIFEST.json'))['checks']))"); do
  out=$(./check $pid --tier quick 2>/dev/null | grep -E "^VIOLATION|^KNOWN|tier=" | cut -c1-220)
  echo "$out"
done
